"""Slice V (and B): programs of the supported fragment.

A generated module (list of DAG definitions, the last one being the one called) is rendered
 * as Python source executed by real tawazi (random attributes / max_concurrency / flavour / config reload,
   optionally under scripted completion orders),
 * as Python source executed by CPython with plain wrappers (the oracle: "every decorated function
   replaced by its plain callable"),
 * in the line protocol of lean/Drivers/Prog.lean (plain evaluation, tracer + denotation, table)."""
import asyncio
import json
import os
import random
import tempfile

import control  # noqa: F401
import tawazi
from tawazi import Resource

LIB_SRC = '''
def ident(x): return x
def tag2(a, b=0): return ("tag2", a, b)
def kw(a, *, k=1, j=2): return ("kw", a, k, j)
def pair(x): return (("L", x), ("R", x))
def trip(x): return [x, (x, x), {"k": x}]
def mkd(x): return {"a": x, "b": ("b", x), "n": [x, x], (0, 1): ("t", x)}
def ispos(x): return (isinstance(x, bool) and x) or (isinstance(x, int) and not isinstance(x, bool) and x > 0)
def num(x): return x if isinstance(x, int) and not isinstance(x, bool) else 3
def const5(): return 5
'''
FUNCS = {"ident": (1, [], "any"), "tag2": (2, [], "tup3"), "kw": (1, ["k", "j"], "tup4"), "pair": (1, [], "pair"),
         "trip": (1, [], "trip"), "mkd": (1, [], "dict"), "ispos": (1, [], "bool"), "num": (1, [], "int"),
         "const5": (0, [], "int"), "not_": (1, [], "bool"), "and_": (2, [], "any"), "or_": (2, [], "any")}
TWZ_BUILTINS = ("not_", "and_", "or_")
OPS = {"_add": "+", "_sub": "-", "_mul": "*", "_lt": "<", "_le": "<=", "_gt": ">", "_ge": ">=", "_eq": "==",
       "_ne": "!=", "_floordiv": "//", "_mod": "%"}
CONSTS = [1, -2, 0, True, False, None, "s", (1, 2), [3], 7, {"q": 1}, "", 0, False, None]


# ---------------------------------------------------------------------------------------------
# value encodings
# ---------------------------------------------------------------------------------------------
def enc(v):
    if v is None:
        return "N"
    if v is True:
        return "T"
    if v is False:
        return "F"
    if isinstance(v, int):
        return "I %d" % v
    if isinstance(v, str):
        return "S %s" % (v if v else '""')
    if isinstance(v, tuple):
        return ("( %d %s" % (len(v), " ".join(enc(x) for x in v))).strip()
    if isinstance(v, list):
        return ("[ %d %s" % (len(v), " ".join(enc(x) for x in v))).strip()
    if isinstance(v, dict):
        return ("{ %d %s" % (len(v), " ".join("%s %s" % (k, enc(x)) for k, x in v.items()))).strip()
    raise TypeError(v)


def render(v):
    if v is None:
        return "N"
    if v is True:
        return "T"
    if v is False:
        return "F"
    if isinstance(v, int):
        return "I%d" % v
    if isinstance(v, str):
        return "S%s" % v
    if isinstance(v, tuple):
        return "(" + ",".join(render(x) for x in v) + ")"
    if isinstance(v, list):
        return "[" + ",".join(render(x) for x in v) + "]"
    if isinstance(v, dict):
        return "{" + ",".join("%s:%s" % (keystr(k), render(x)) for k, x in v.items()) + "}"
    return "?" + repr(v)[:60]


def keystr(k):
    """a dict key as the model names it: a tuple key (0, 1) is the single key "(0,1)" """
    return "(%s)" % ",".join(map(str, k)) if isinstance(k, (tuple, list)) else k


# ---------------------------------------------------------------------------------------------
# generation
# ---------------------------------------------------------------------------------------------
class DefGen:
    def __init__(self, rng, nparams, defs, allow_flags=True, depth=0):
        self.rng = rng
        self.kinds = ["any"] * nparams
        self.defs = defs
        self.allow_flags = allow_flags
        self.depth = depth

    def arg(self, want=None):
        rng = self.rng
        cands = [i for i, k in enumerate(self.kinds) if want is None or k in want]
        if not cands or rng.random() < 0.25:
            if want == ("int",):
                return ["c", rng.choice([1, 2, -3, 0])], "int"
            return ["c", rng.choice(CONSTS)], "const"
        i = rng.choice(cands)
        k = self.kinds[i]
        r = rng.random()
        if k == "pair" and r < 0.6:
            return ["v", i, [["i", rng.randint(0, 1)]]], "any"
        if k == "trip" and r < 0.6:
            return ["v", i, rng.choice([[["i", 0]], [["i", 1], ["i", 0]], [["i", 2], ["s", "k"]], [["i", -1], ["s", "k"]]])], "any"
        if k == "dict" and r < 0.6:
            # a TUPLE key  v[(0, 1)]  /  v[0, 1]  is ONE key, not two successive ones
            return ["v", i, rng.choice([[["s", "a"]], [["s", "b"], ["i", 1]], [["s", "n"], ["i", 0]],
                                        [["t", (0, 1)]], [["t", (0, 1)], ["i", 1]]])], "any"
        if k in ("tup3", "tup4") and r < 0.4:
            return ["v", i, [["i", 1]]], "any"
        return ["v", i, []], k

    def arg_indexed(self):
        """an indexed part of a container-valued variable when there is one (key paths are where the bugs hide)"""
        rng = self.rng
        cands = [i for i, k in enumerate(self.kinds) if k in ("pair", "trip", "dict", "tup3", "tup4")]
        if not cands or rng.random() < 0.3:
            return self.arg()[0]
        i = rng.choice(cands)
        k = self.kinds[i]
        if k == "pair":
            return ["v", i, [["i", rng.randint(0, 1)]] + ([["i", 1]] if rng.random() < 0.5 else [])]
        if k == "trip":
            return ["v", i, rng.choice([[["i", 0]], [["i", 1], ["i", 0]], [["i", 2], ["s", "k"]], [["i", -1], ["s", "k"]]])]
        if k == "dict":
            return ["v", i, rng.choice([[["s", "a"]], [["s", "b"], ["i", 1]], [["s", "n"], ["i", 0]]])]
        return ["v", i, [["i", rng.choice([1, 2])]]]

    FLAG_PATHS = {
        "pair": [[["i", 0]], [["i", 1]], [["i", 0], ["i", 1]], [["i", 1], ["i", 1]], [["i", 0], ["i", 0]]],
        "trip": [[["i", 0]], [["i", 1]], [["i", 1], ["i", 0]], [["i", 2]], [["i", 2], ["s", "k"]], [["i", -1], ["s", "k"]]],
        "dict": [[["s", "a"]], [["s", "b"]], [["s", "b"], ["i", 1]], [["s", "n"]], [["s", "n"], ["i", 0]]],
        "tup3": [[["i", 0]], [["i", 1]], [["i", 2]]],
        "tup4": [[["i", 0]], [["i", 1]], [["i", 2]]],
    }

    def flag(self):
        """Flags prefer indexed parts; once a container has served as the source of a flag, later flags of the same
        definition tend to use OTHER parts of the SAME container (parts of one value with different truthiness: a
        decision remembered per source node instead of per reference shows only there)."""
        rng = self.rng
        src = getattr(self, "flag_src", None)
        if src is not None and rng.random() < 0.5:
            i, k, used = src
            p_ = rng.choice([q for q in self.FLAG_PATHS[k] if q != used])
            self.flag_src = (i, k, p_)
            return ["v", i, p_]
        r = rng.random()
        if r < 0.2:
            return ["c", rng.choice([True, False, 0, 1, None, "", "x"])]
        if r < 0.6:
            a = self.arg_indexed()
        else:
            a = self.arg()[0]
        if a[0] == "v" and a[2] and self.kinds[a[1]] in self.FLAG_PATHS:
            self.flag_src = (a[1], self.kinds[a[1]], a[2])
        return a

    def stmt(self):
        rng = self.rng
        r = rng.random()
        if self.defs and r < 0.3:
            j = rng.randrange(len(self.defs))
            d = self.defs[j]
            req = sum(1 for p in d["params"] if "default" not in p)
            m = rng.randint(req, len(d["params"]))
            args = [self.arg()[0] for _ in range(m)]
            # an explicit constant that EQUALS the parameter's default without being the same value (0 / False, 1 / True):
            # it is an explicit argument all the same, and the body must see it, not the default
            twins = {0: False, 1: True}
            for i_, p_ in enumerate(d["params"][:m]):
                dv = p_.get("default", "no")
                if type(dv) in (int, bool) and dv in (0, 1) and rng.random() < 0.35:
                    args[i_] = ["c", (int(dv) if isinstance(dv, bool) else twins[dv]) if rng.random() < 0.8 else dv]
            fl = None
            if self.allow_flags and not d["uses_flags"] and rng.random() < 0.3:
                fl = self.flag()
            for _ in d["ret"]["items"]:
                self.kinds.append("any")
            return dict(k="dag", callee=j, args=args, flag=fl)
        if r < 0.45:
            ivars = [i for i, k in enumerate(self.kinds) if k == "int"]
            if ivars:
                op = rng.choice(list(OPS))
                a = ["v", rng.choice(ivars), []]
                b, _ = self.arg(("int",))
                if op in ("_floordiv", "_mod"):
                    b = ["c", rng.choice([2, 3, -2])]
                if rng.random() < 0.3:
                    a, b = (b, a) if b[0] == "v" else (a, b)
                self.kinds.append("int" if op in ("_add", "_sub", "_mul", "_floordiv", "_mod") else "bool")
                return dict(k="call", fn=op, args=[a, b], kwargs=[], flag=None, unpack=None)
        if r < 0.53:
            # + and * on sequences (tuples / lists): not commutative, so `constant + result` (the reflected
            # operator) and `result + constant` differ
            tvars = [i for i, k in enumerate(self.kinds) if k in ("pair", "tup3", "tup4")]
            lvars = [i for i, k in enumerate(self.kinds) if k == "trip"]
            if tvars or lvars:
                if tvars and (not lvars or rng.random() < 0.7):
                    a = ["v", rng.choice(tvars), []]
                    other = rng.choice([["c", (1, 2)], ["c", ()], ["v", rng.choice(tvars), []]])
                else:
                    a = ["v", rng.choice(lvars), []]
                    other = rng.choice([["c", [3]], ["v", rng.choice(lvars), []]])
                if rng.random() < 0.4:
                    op, other = "_mul", ["c", rng.choice([2, 0, 1])]
                else:
                    op = "_add"
                args = [other, a] if rng.random() < 0.6 else [a, other]
                self.kinds.append("any")
                return dict(k="call", fn=op, args=args, kwargs=[], flag=None, unpack=None)
        f = rng.choice(list(FUNCS))
        npos, kws, kind = FUNCS[f]
        args = [self.arg()[0] for _ in range(npos)]
        kwargs = []
        if f == "tag2":
            m = rng.random()
            if m < 0.35:
                args = args[:1]
            elif m < 0.6:
                kwargs = [["b", self.arg_indexed() if rng.random() < 0.6 else args[1]]]
                args = args[:1]
        for k in kws:
            if rng.random() < 0.5:
                kwargs.append([k, self.arg_indexed()])
        fl = self.flag() if (self.allow_flags and rng.random() < 0.3) else None
        unpack = None
        if f == "pair" and rng.random() < 0.5 and fl is None:
            unpack = 2
        elif f == "tag2" and rng.random() < 0.3 and fl is None:
            unpack = 3
        if unpack:
            self.kinds.extend(["any"] * unpack)
        else:
            self.kinds.append(kind)
        return dict(k="call", fn=f, args=args, kwargs=kwargs, flag=fl, unpack=unpack)


def gen_def(rng, name, defs, is_top, allow_flags=True):
    nparams = rng.randint(0, 3)
    params = []
    ndef = rng.randint(0, nparams)
    for i in range(nparams):
        p = dict(name="p%d" % i)
        if i >= nparams - ndef:
            p["default"] = rng.choice([1, -1, 0, 4, True, None, "z", (5, 6)])
        params.append(p)
    g = DefGen(rng, nparams, defs, allow_flags=allow_flags)
    body = [g.stmt() for _ in range(rng.randint(1, 6 if is_top else 4))]
    r = rng.random()
    shapes = ["s", "t", "l", "d"] + (["n"] if is_top else [])
    shape = rng.choice(shapes)
    items = []
    if shape != "n":
        k = 1 if shape == "s" else rng.randint(1, 3)
        for j in range(k):
            a = g.arg()[0]
            if not is_top and a[0] == "c":      # an inner DAG returning a constant is refused (known finding)
                vs = [i for i in range(len(g.kinds))]
                a = ["v", rng.choice(vs), []] if vs else a
            items.append(["k%d" % j if shape == "d" else None, a])
        if not is_top and any(a[0] == "c" for _k, a in items):
            return None
    whole = None
    dag_stmts = [j for j, s_ in enumerate(body) if s_["k"] == "dag"]
    if dag_stmts and rng.random() < 0.25:
        # `return inner(...)`-style: pass the callee's container on whole as this DAG's return value
        j = rng.choice(dag_stmts)
        callee = defs[body[j]["callee"]]
        first = nparams
        for s_ in body[:j]:
            if s_["k"] == "dag":
                first += len(defs[s_["callee"]]["ret"]["items"])
            else:
                first += s_.get("unpack") or 1
        shape = callee["ret"]["shape"]
        items = [[key, ["v", first + c, []]] for c, (key, _a) in enumerate(callee["ret"]["items"])]
        whole = j
    uses_flags = any(s.get("flag") is not None for s in body) or any(
        s["k"] == "dag" and defs[s["callee"]]["uses_flags"] for s in body)
    ret = dict(shape=shape, items=items)
    if whole is not None:
        ret["whole"] = whole
    return dict(name=name, params=params, body=body, ret=ret, uses_flags=uses_flags, nvars=len(g.kinds))


def gen_module(rng, nested=True, allow_flags=True, max_defs=3):
    defs = []
    n_inner = rng.choice([0, 0, 1, 1, 2]) if nested else 0
    n_inner = min(n_inner, max_defs - 1)
    for j in range(n_inner):
        d = None
        for _ in range(20):
            d = gen_def(rng, "d%d" % j, defs, False, allow_flags)
            if d is not None:
                break
        if d is None:
            break
        defs.append(d)
    if len(defs) >= 2 and rng.random() < 0.35:
        # two different inner DAGs that carry the SAME qualname (built by a factory, defined in two scopes …): node ids are
        # prefixed with the DAG's qualname, the two splices must still never capture each other's nodes
        for d_ in defs[:2]:
            d_["qual"] = "shared_qualname"
    top = gen_def(rng, "main", defs, True, allow_flags)
    defs.append(top)
    args = []
    req = sum(1 for p in top["params"] if "default" not in p)
    m = rng.randint(req, len(top["params"]))
    args = [rng.choice([1, -1, 0, 4, True, None, "z", (5, 6), [2, 3], {"a": 1}]) for _ in range(m)]
    return dict(defs=defs, args=args)


def same_callee_twice(mod):
    """Does some definition call the same inner DAG at two call sites (known finding F-twice)?"""
    for d in mod["defs"]:
        seen = set()
        for s in d["body"]:
            if s["k"] == "dag":
                if s["callee"] in seen:
                    return True
                seen.add(s["callee"])
    return False


# ---------------------------------------------------------------------------------------------
# protocol
# ---------------------------------------------------------------------------------------------
def parg(a):
    if a[0] == "c":
        return "c " + enc(a[1])
    return "v %d %d %s" % (a[1], len(a[2]), " ".join(("s %s" % keystr(k)) if t == "t" else "%s %s" % (t, k) for t, k in a[2]))


def proto(mid, mod):
    out = ["M %s %d %d %d %s" % (mid, len(mod["defs"]), len(mod["defs"]) - 1, len(mod["args"]),
                                  " ".join(enc(a) for a in mod["args"]))]
    for d in mod["defs"]:
        out.append("F %d %s" % (len(d["params"]),
                                " ".join(("d " + enc(p["default"])) if "default" in p else "r" for p in d["params"])))
        for s in d["body"]:
            fl = ("1 " + parg(s["flag"])) if s.get("flag") is not None else "0"
            if s["k"] == "dag":
                out.append("G %d %d %s %s" % (s["callee"], len(s["args"]), " ".join(parg(a) for a in s["args"]), fl))
            else:
                out.append("C %s %d %s %d %s %s %s" % (
                    s["fn"], len(s["args"]), " ".join(parg(a) for a in s["args"]), len(s["kwargs"]),
                    " ".join("%s %s" % (k, parg(a)) for k, a in s["kwargs"]), fl,
                    ("u %d" % s["unpack"]) if s.get("unpack") else "-"))
        r = d["ret"]
        if r["shape"] == "n":
            out.append("R n 0")
        elif r["shape"] == "d":
            out.append("R d %d %s" % (len(r["items"]), " ".join("%s %s" % (k, parg(a)) for k, a in r["items"])))
        else:
            out.append("R %s %d %s" % (r["shape"], len(r["items"]), " ".join(parg(a) for _k, a in r["items"])))
    out.append("E")
    return "\n".join(" ".join(l.split()) for l in out) + "\n"


# ---------------------------------------------------------------------------------------------
# Python sources
# ---------------------------------------------------------------------------------------------
def var_names(d, defs):
    names = [p["name"] for p in d["params"]]
    for j, s in enumerate(d["body"]):
        if s["k"] == "dag":
            k = len(defs[s["callee"]]["ret"]["items"])
            names.extend("v%d_%d" % (j, c) for c in range(k))
        elif s.get("unpack"):
            names.extend("v%d_%d" % (j, c) for c in range(s["unpack"]))
        else:
            names.append("v%d" % j)
    return names


NC_MODE = [False]


class NC(int):
    """An int that notices being cloned: tawazi hands constants and defaults to the node functions as the very objects the
    description wrote (it never copies them); a copy — deep or shallow — shows up as a different VALUE."""
    def __deepcopy__(self, memo):
        return NC(int(self) + 1000)

    def __copy__(self):
        return NC(int(self) + 1000000)


def crepr(v):
    if NC_MODE[0] and isinstance(v, int) and not isinstance(v, bool):
        return "NC(%d)" % v
    return repr(v)


def sarg(a, names):
    if a[0] == "c":
        return crepr(a[1])
    return names[a[1]] + "".join("[%r]" % (tuple(k) if _t == "t" else k,) for _t, k in a[2])


def def_source(d, defs, oracle):
    names = var_names(d, defs)
    lines = []
    for j, s in enumerate(d["body"]):
        if s["k"] == "dag":
            callee = defs[s["callee"]]
            k = len(callee["ret"]["items"])
            targets = ["v%d_%d" % (j, c) for c in range(k)]
            parts = [sarg(a, names) for a in s["args"]]
            shape = callee["ret"]["shape"]
            call = "%s(%s)" % (callee["name"], ", ".join(parts + (["twz_active=%s" % sarg(s["flag"], names)]
                                                                if (s["flag"] is not None and not oracle) else [])))
            if oracle and s["flag"] is not None:
                none_shape = {"s": "None", "t": "(%s)" % ("None, " * k), "l": "[%s]" % ("None, " * k),
                              "d": "{%s}" % ", ".join("%r: None" % key for key, _a in callee["ret"]["items"])}[shape]
                call = "(%s if %s else %s)" % (call, sarg(s["flag"], names), none_shape)
            lines.append("    _r%d = %s" % (j, call))
            if shape == "s":
                lines.append("    %s = _r%d" % (targets[0], j))
            elif shape == "d":
                for c, (key, _a) in enumerate(callee["ret"]["items"]):
                    lines.append("    %s = _r%d[%r]" % (targets[c], j, key))
            else:
                if k == 1:
                    lines.append("    (%s,) = _r%d" % (targets[0], j))
                else:
                    lines.append("    %s = _r%d" % (", ".join(targets), j))
        elif s["fn"] in OPS:
            lines.append("    v%d = %s %s %s" % (j, sarg(s["args"][0], names), OPS[s["fn"]], sarg(s["args"][1], names)))
        else:
            parts = [sarg(a, names) for a in s["args"]] + ["%s=%s" % (k, sarg(a, names)) for k, a in s["kwargs"]]
            if s["flag"] is not None:
                parts.append("twz_active=%s" % sarg(s["flag"], names))
            if s.get("unpack"):
                fn_name = s["fn"]
                if not oracle:
                    if s["fn"] == "pair" and s["unpack"] == 2 and (j % 2 == 0):
                        fn_name = "pair_unpacked2"       # unpack_to given by the decorator
                    else:
                        parts.append("twz_unpack_to=%d" % s["unpack"])
                lines.append("    %s = %s(%s)" % (", ".join("v%d_%d" % (j, c) for c in range(s["unpack"])), fn_name, ", ".join(parts)))
            else:
                lines.append("    v%d = %s(%s)" % (j, s["fn"], ", ".join(parts)))
    r = d["ret"]
    if r.get("whole") is not None:
        lines.append("    return _r%d" % r["whole"])
    elif r["shape"] == "s":
        lines.append("    return %s" % sarg(r["items"][0][1], names))
    elif r["shape"] == "t":
        lines.append("    return (%s,)" % ", ".join(sarg(a, names) for _k, a in r["items"]))
    elif r["shape"] == "l":
        lines.append("    return [%s]" % ", ".join(sarg(a, names) for _k, a in r["items"]))
    elif r["shape"] == "d":
        lines.append("    return {%s}" % ", ".join("%r: %s" % (k, sarg(a, names)) for k, a in r["items"]))
    params = ", ".join(p["name"] + ("=%s" % crepr(p["default"]) if "default" in p else "") for p in d["params"])
    return "def %s(%s):\n%s\n" % (d["name"], params, "\n".join(lines) or "    pass")


PLAIN_PRELUDE = '''
def xn(f):
    def inner(*a, **k):
        act = k.pop("twz_active", True)
        if not act: return None
        return f(*a, **k)
    return inner
def not_(a): return not a
def and_(a, b): return a and b
def or_(a, b): return a or b
'''


def run_oracle(mod):
    env = {}
    exec(PLAIN_PRELUDE + LIB_SRC + "\n".join("%s = xn(%s)" % (f, f) for f in FUNCS), env)   # noqa: S102
    try:
        for d in mod["defs"]:
            exec(def_source(d, mod["defs"], True), env)   # noqa: S102
        return ("OK", env["main"](*mod["args"]))
    except Exception as e:  # noqa: BLE001
        return ("ERR", type(e).__name__)


def wrap_lib(attrs):
    """Library functions as ExecNodes with the scenario's attributes; they report to the controller."""
    env = {}
    exec(LIB_SRC, env)   # noqa: S102
    out = {}
    for f in FUNCS:
        if f in TWZ_BUILTINS:
            out[f] = getattr(tawazi, f)
            continue
        raw = env[f]

        def mk(raw=raw, f=f):
            def body(*a, **k):
                control.node_enter(f)
                return raw(*a, **k)
            body.__name__ = body.__qualname__ = f
            import inspect
            body.__signature__ = inspect.signature(raw)
            return body
        a = attrs.get(f, {})
        out[f] = tawazi.xn(mk(), priority=a.get("prio", 0), is_sequential=a.get("seq", False),
                           resource=a.get("res", Resource.thread))
        if f == "pair":
            out["pair_unpacked2"] = tawazi.xn(mk(), priority=a.get("prio", 0), is_sequential=a.get("seq", False),
                                              resource=a.get("res", Resource.thread), unpack_to=2)
    return out


def gen_attrs(rng):
    attrs = {}
    for f in FUNCS:
        attrs[f] = dict(prio=rng.choice([0, 0, 1, 5, -2]), seq=rng.random() < 0.15,
                        res=rng.choice([Resource.thread, Resource.thread, Resource.async_thread, Resource.main_thread]))
    return attrs


def build_real(mod, attrs, maxc, is_async, is_async_inner=False):
    """Describe every definition with the real decorators; returns the list of DAG objects."""
    from tawazi._dag.constructor import threadsafe_make_dag
    env = dict(wrap_lib(attrs))
    dags = []
    for k, d in enumerate(mod["defs"]):
        NC_MODE[0] = True       # int constants and defaults of the REAL description notice being cloned
        try:
            src_ = def_source(d, mod["defs"], False)
        finally:
            NC_MODE[0] = False
        env["NC"] = NC
        exec(src_, env)   # noqa: S102
        fn = env[d["name"]]
        if d.get("qual"):
            fn.__qualname__ = fn.__name__ = d["qual"]
        top = k == len(mod["defs"]) - 1
        obj = threadsafe_make_dag(fn, maxc if top else 1, is_async if top else False)
        env[d["name"]] = obj
        dags.append(obj)
    return dags


def apply_config(rng, dag_obj, how, ids):
    """Reload a configuration through dict / YAML / JSON (priorities, sequential flags, max_concurrency)."""
    conf = {"nodes": {}, "max_concurrency": rng.randint(1, 4)}
    for i in rng.sample(ids, min(len(ids), rng.randint(0, 3))):
        conf["nodes"][i] = {"priority": rng.choice([0, 3, -4, 9]), "is_sequential": rng.random() < 0.3}
    if how == "dict":
        dag_obj.config_from_dict(conf)
    else:
        fd, path = tempfile.mkstemp(suffix="." + how, prefix="twzcfg")
        os.close(fd)
        try:
            with open(path, "w") as f:
                if how == "json":
                    json.dump(conf, f)
                else:
                    import yaml
                    yaml.safe_dump(conf, f)
            (dag_obj.config_from_json if how == "json" else dag_obj.config_from_yaml)(path)
        finally:
            os.remove(path)
    return conf


def run_real(mod, rng, controlled=True, force=None):
    """Build and call the module's top DAG under one random configuration.  Returns (outcome, info)."""
    attrs = gen_attrs(rng)
    maxc = rng.randint(1, 4)
    is_async = rng.random() < 0.35
    how = rng.choice([None, None, "dict", "yaml", "json"])
    if force:
        is_async = force.get("is_async", is_async)
        maxc = force.get("maxc", maxc)
    info = dict(maxc=maxc, is_async=is_async, config=how)
    tawazi.cfg.TAWAZI_PROFILE_ALL_NODES = rng.random() < 0.2     # a documented option that must not change any value
    info["profile"] = tawazi.cfg.TAWAZI_PROFILE_ALL_NODES
    try:
        dags = build_real(mod, attrs, maxc, is_async)
    except BaseException as e:  # noqa: BLE001
        return ("BUILD-ERR", type(e).__name__, str(e)[:160]), info
    top = dags[-1]
    if how:
        ids = [i for i, x in top.exec_nodes.items() if type(x).__name__ == "LazyExecNode"]
        apply_config(rng, top, how, ids)

    def call():
        return asyncio.run(top(*mod["args"])) if is_async else top(*mod["args"])
    nparams = len(mod["defs"][-1]["params"])
    if controlled and nparams and rng.random() < 0.2:
        # the DAG has a past: an executor of it was run with OTHER arguments (explicit values for every parameter,
        # defaulted ones included); whatever that run did, the observed call must return what the plain function returns
        pre_args = [rng.choice([0, 1, 5, -3, True, None, "q", (9, 8), [4, 4, 4], {"a": 2, "b": 0, "n": [0, 1]}]) for _ in range(nparams)]

        def prelude():
            ex = top.executor()
            return asyncio.run(ex(*pre_args)) if is_async else ex(*pre_args)
        control.run_controlled(prelude, control.Script(rng=random.Random(rng.randrange(1 << 30))), timeout=40)
        info["prelude_executor_args"] = repr(pre_args)
    if controlled and rng.random() < 0.15:
        # the DAG has a past: other DAGs were COMPOSED from it (any inputs / outputs; refusals are fine): composing never
        # changes what the original returns
        import warnings as _w
        lazy = [i for i, x in top.exec_nodes.items() if type(x).__name__ == "LazyExecNode"]
        for _ in range(rng.randint(1, 2)):
            if not lazy:
                break
            outs_ = rng.sample(lazy, rng.randint(1, min(2, len(lazy))))
            ins_ = [i for i in rng.sample(lazy, rng.randint(0, min(2, len(lazy)))) if i not in outs_]
            try:
                with _w.catch_warnings():
                    _w.simplefilter("ignore")
                    top.compose("composed_in_the_past", ins_, outs_)
            except BaseException:  # noqa: BLE001
                pass
        info["prelude_compose"] = True
    if controlled:
        R, outcome = control.run_controlled(call, control.Script(rng=random.Random(rng.randrange(1 << 30))), timeout=40)
        info["dispatches"] = sum(1 for e in R.log if e[1] == "dispatch")
        if outcome[0] == "ok":
            return ("OK", outcome[1]), info
        if outcome[0] == "hang":
            return ("HANG",), info
        return ("ERR", type(outcome[1]).__name__, str(outcome[1])[:160]), info
    try:
        return ("OK", call()), info
    except BaseException as e:  # noqa: BLE001
        return ("ERR", type(e).__name__, str(e)[:160]), info


# ---------------------------------------------------------------------------------------------
# directed enumeration for nested calls (C10 / C20): signatures x argument supply x flag x outputs x uses
# ---------------------------------------------------------------------------------------------
def directed_modules():
    """Systematic small modules: every inner signature with <=2 parameters (required / defaulted),
    every way of supplying 0..k arguments (constant or result), every return shape, flag absent /
    constant truthy / constant falsy / computed truthy / computed falsy, outputs that are a parameter,
    a node result or an indexed part of one."""
    sigs = [[], ["r"], ["d"], ["r", "r"], ["r", "d"], ["d", "d"]]
    flags = [None, ["c", True], ["c", False], ["v", "t"], ["v", "f"]]
    for sig in sigs:
        params = [dict(name="p%d" % i, **({"default": 10 + i} if k == "d" else {})) for i, k in enumerate(sig)]
        n = len(sig)
        req = sum(1 for k in sig if k == "r")
        # inner body: one plain node over the first parameter (or a constant), one pair() node
        a0 = ["v", 0, []] if n else ["c", 3]
        body = [dict(k="call", fn="tag2", args=[a0, ["v", n - 1, []] if n else ["c", 4]], kwargs=[], flag=None, unpack=None),
                dict(k="call", fn="pair", args=[a0], kwargs=[], flag=None, unpack=None)]
        outsets = [[["v", n, []], ["v", n + 1, []]] + ([["v", n - 1, []]] if n else []) + ([["v", 0, []]] if n > 1 else []),
                   [["v", n, []], ["v", n + 1, [["i", 0]]]]]
        for shape, outs in [(sh, o) for sh in ("s", "t", "l", "d") for o in outsets]:
            if shape == "s" and outs is outsets[1]:
                continue
            items = outs[:1] if shape == "s" else outs
            inner = dict(name="d0", params=params, body=body,
                         ret=dict(shape=shape, items=[["k%d" % j if shape == "d" else None, a] for j, a in enumerate(items)]),
                         uses_flags=False)
            for m in range(req, n + 1):
                for argkind in ("c", "v"):
                    if m == 0 and argkind == "v":
                        continue
                    for fl in flags:
                        # outer: v0 = ispos(1) (truthy), v1 = ispos(0) (falsy), v2 = ident(7); call; use outputs
                        obody = [dict(k="call", fn="ispos", args=[["c", 1]], kwargs=[], flag=None, unpack=None),
                                 dict(k="call", fn="ispos", args=[["c", 0]], kwargs=[], flag=None, unpack=None),
                                 dict(k="call", fn="ident", args=[["c", 7]], kwargs=[], flag=None, unpack=None)]
                        args = [(["c", 20 + i] if argkind == "c" else ["v", 2, []]) for i in range(m)]
                        f = None
                        if fl is not None:
                            f = fl if fl[0] == "c" else ["v", 0 if fl[1] == "t" else 1, []]
                        obody.append(dict(k="dag", callee=0, args=args, flag=f))
                        k = len(items)
                        first = 3
                        obody.append(dict(k="call", fn="ident", args=[["v", first, []]], kwargs=[], flag=None, unpack=None))
                        ritems = [[None, ["v", first + c, []]] for c in range(k)] + [[None, ["v", first + k, []]]]
                        top = dict(name="main", params=[], body=obody, ret=dict(shape="t", items=ritems), uses_flags=f is not None)
                        yield dict(defs=[inner, top], args=[])


def directed_shared_flag_modules():
    """Two flagged consumers whose flags are DIFFERENT parts of the SAME value (a node result, an unpacked result,
    a DAG argument), with every combination of truthiness, as plain nodes and as nested-DAG calls.  Which of the two
    is scheduled first is left to the random configurations (priorities) of the real runs."""
    inner = dict(name="d0", params=[dict(name="p0")],
                 body=[dict(k="call", fn="tag2", args=[["v", 0, []], ["c", 1]], kwargs=[], flag=None, unpack=None)],
                 ret=dict(shape="s", items=[[None, ["v", 1, []]]]), uses_flags=False)
    for x in (0, 5, None, ""):
        for srcfn, pa, pb in (("trip", [["i", 0]], [["i", 1]]), ("trip", [["i", 1], ["i", 0]], [["i", 2]]),
                              ("mkd", [["s", "a"]], [["s", "b"]]), ("mkd", [["s", "n"], ["i", 0]], [["s", "n"]]),
                              ("pair", [["i", 0], ["i", 1]], [["i", 1]])):
            for order in (0, 1):
                p1, p2 = (pa, pb) if order == 0 else (pb, pa)
                for nested in (False, True):
                    body = [dict(k="call", fn=srcfn, args=[["v", 0, []]], kwargs=[], flag=None, unpack=None)]
                    if nested:
                        body.append(dict(k="dag", callee=0, args=[["c", 10]], flag=["v", 1, p1]))
                        body.append(dict(k="dag", callee=0, args=[["c", 20]], flag=["v", 1, p2]))
                        defs = [inner]
                    else:
                        body.append(dict(k="call", fn="tag2", args=[["c", 10], ["c", 1]], kwargs=[], flag=["v", 1, p1], unpack=None))
                        body.append(dict(k="call", fn="tag2", args=[["c", 20], ["c", 1]], kwargs=[], flag=["v", 1, p2], unpack=None))
                        defs = []
                    top = dict(name="main", params=[dict(name="p0")], body=body, uses_flags=True,
                               ret=dict(shape="t", items=[[None, ["v", 2, []]], [None, ["v", 3, []]]]))
                    yield dict(defs=defs + [top], args=[x])
    # parts of one DAG argument, and two components of one unpacked result
    for arg in ((0, 5), (5, 0), [0, 3], {"a": 0, "b": 2}):
        ks = [[["s", "a"]], [["s", "b"]]] if isinstance(arg, dict) else [[["i", 0]], [["i", 1]]]
        for p1, p2 in ((ks[0], ks[1]), (ks[1], ks[0])):
            body = [dict(k="call", fn="tag2", args=[["c", 10], ["c", 1]], kwargs=[], flag=["v", 0, p1], unpack=None),
                    dict(k="call", fn="tag2", args=[["c", 20], ["c", 1]], kwargs=[], flag=["v", 0, p2], unpack=None)]
            top = dict(name="main", params=[dict(name="p0")], body=body, uses_flags=True,
                       ret=dict(shape="t", items=[[None, ["v", 1, []]], [None, ["v", 2, []]]]))
            yield dict(defs=[top], args=[arg])
    for x in (0, 5):
        for a, b in ((1, 2), (2, 1)):
            # u0, u1 = pair(x) unpacked: u0 = ("L", x), u1 = ("R", x); flags u_[1] (x itself) and u_ (truthy tuple)
            body = [dict(k="call", fn="pair", args=[["v", 0, []]], kwargs=[], flag=None, unpack=2),
                    dict(k="call", fn="tag2", args=[["c", 10], ["c", 1]], kwargs=[], flag=["v", a, [["i", 1]]], unpack=None),
                    dict(k="call", fn="tag2", args=[["c", 20], ["c", 1]], kwargs=[], flag=["v", b, []], unpack=None)]
            top = dict(name="main", params=[dict(name="p0")], body=body, uses_flags=True,
                       ret=dict(shape="t", items=[[None, ["v", 3, []]], [None, ["v", 4, []]]]))
            yield dict(defs=[top], args=[x])


def directed_passing_modules():
    """Every way a value reaches a node inside a nested DAG (and at top level): positional / keyword x whole /
    indexed / doubly indexed / unpacked component, as argument and as activation flag, for truthy and falsy elements."""
    forms = [("whole", []), ("idx", [["i", 0]]), ("idx2", [["i", 1], ["i", 1]])]
    for nested in (False, True):
        for x in (3, 0, None, "", (1, 2)):
            for fname, path in forms:
                for how in ("pos", "kw", "flag", "unpack-pos", "unpack-kw", "unpack-flag"):
                    # body (over parameter p0): v0 = pair(p0) -> (("L",p0),("R",p0)); consumer reads v0<path> or an unpacked part
                    body = [dict(k="call", fn="pair", args=[["v", 0, []]], kwargs=[], flag=None,
                                 unpack=2 if how.startswith("unpack") else None)]
                    if how.startswith("unpack"):
                        src = ["v", 2, [["i", 1]]] if fname != "whole" else ["v", 1, []]   # second component / its element
                        nxt = 3
                    else:
                        src = ["v", 1, path]
                        nxt = 2
                    h = how.split("-")[-1]
                    if h == "pos":
                        body.append(dict(k="call", fn="kw", args=[src], kwargs=[], flag=None, unpack=None))
                    elif h == "kw":
                        body.append(dict(k="call", fn="kw", args=[["c", 1]], kwargs=[["k", src], ["j", src]], flag=None, unpack=None))
                    else:
                        body.append(dict(k="call", fn="kw", args=[["c", 1]], kwargs=[], flag=src, unpack=None))
                    ret = dict(shape="t", items=[[None, ["v", nxt, []]], [None, ["v", 0, []]]])
                    if nested:
                        inner = dict(name="d0", params=[dict(name="p0")], body=body, ret=ret, uses_flags=(h == "flag"))
                        top = dict(name="main", params=[], uses_flags=(h == "flag"),
                                   body=[dict(k="dag", callee=0, args=[["c", x]], flag=None)],
                                   ret=dict(shape="l", items=[[None, ["v", 0, []]], [None, ["v", 1, []]]]))
                        yield dict(defs=[inner, top], args=[])
                    else:
                        top = dict(name="main", params=[dict(name="p0")], body=body, ret=ret, uses_flags=(h == "flag"))
                        yield dict(defs=[top], args=[x])


# ---------------------------------------------------------------------------------------------
# slice B: the built table, as a multiset of canonical terms (no id prediction needed)
# ---------------------------------------------------------------------------------------------
def _path(keys):
    return "".join("/i%d" % k if isinstance(k, int) and not isinstance(k, bool) else "/s%s" % keystr(k) for k in keys)


def real_table_terms(top, args):
    """Canonical terms of the real DAG's table: one per executable node, plus the return references."""
    from tawazi.node import UsageExecNode
    xs = top.exec_nodes
    bound = dict(top.results)
    for uxn, v in zip(top.input_uxns, args):
        bound[uxn.id] = v
    memo = {}

    def fname(node):
        q = getattr(node.exec_function, "__qualname__", "?")
        if "<lambda>" in q:
            return "$ident"
        return q

    def term_of(id_):
        if id_ in memo:
            return memo[id_]
        node = xs[id_]
        if type(node).__name__ != "LazyExecNode":
            t = "c" + (render(bound[id_]) if id_ in bound else "?")
        else:
            a = ",".join(ref(u) for u in node.args)
            kw = ",".join("%s=%s" % (k.split(".")[-1], ref(u)) for k, u in sorted(node.kwargs.items(), key=lambda kv: kv[0].split(".")[-1]))
            fl = ref(node.active) if node.active is not None else "-"
            t = "%s(%s|%s|%s)" % (fname(node), a, kw, fl)
        memo[id_] = t
        return t

    def ref(u):
        return term_of(u.id) + _path(u.key)

    nodes = sorted(term_of(i) for i, n in xs.items() if type(n).__name__ == "LazyExecNode")
    r = top.return_uxns
    if r is None:
        rets = []
    elif isinstance(r, UsageExecNode):
        rets = [ref(r)]
    elif isinstance(r, dict):
        rets = [ref(u) for u in r.values()]
    else:
        rets = [ref(u) for u in r]
    return nodes, rets


def model_table_terms(lines):
    """The same canonical terms from the `node` / `ret` lines of lean/Drivers/Prog.lean."""
    import re
    recs = {}
    rets = []
    for l in lines:
        w = l.split(" ", 2)
        if w[1] == "node":
            m = re.match(r"(\d+) (\S+) args\[(.*?)\] kw\[(.*?)\] flag\[(.*?)\]$", w[2])
            if not m:
                return None
            k, fn, a, kw, fl = m.groups()
            recs[int(k)] = (fn, a.split() if a else [], kw.split() if kw else [], fl)
        elif w[1] == "ret":
            rets = w[2].split() if len(w) > 2 else []
    memo = {}

    def ref(tok):
        base, _, rest = tok.partition("/")
        path = ("/" + rest) if rest else ""
        if base.startswith("n") and base[1:].isdigit():
            return term_of(int(base[1:])) + path
        return base + path     # c<value> holder (or ? dangling)

    def term_of(k):
        if k in memo:
            return memo[k]
        fn, a, kw, fl = recs[k]
        kws = sorted((x.split("=", 1) for x in kw), key=lambda p: p[0])
        t = "%s(%s|%s|%s)" % (fn, ",".join(ref(x) for x in a), ",".join("%s=%s" % (n_, ref(v)) for n_, v in kws),
                              ref(fl) if fl != "-" else "-")
        memo[k] = t
        return t
    return sorted(term_of(k) for k in recs), [ref(x) for x in rets]


def attr_mismatches(top, attrs):
    """Every executable node of the built table — written in the top DAG's own body or spliced in from a DAG it calls, at
    any depth — must carry the attributes its function was DECLARED with (priority, is_sequential, resource)."""
    out = []
    for id_, node in top.exec_nodes.items():
        if type(node).__name__ != "LazyExecNode":
            continue
        q = getattr(node.exec_function, "__qualname__", "?")
        if q.endswith("<lambda>") and ">!>" in id_:
            # the identity stub that hands a supplied argument to a parameter of a called DAG: written in place there is no
            # such node at all — it must not weigh on the schedule (not sequential, priority 0, run by the scheduler itself)
            got = (node.priority, bool(node.is_sequential), node.resource)
            if got != (0, False, Resource.main_thread):
                out.append((id_, "<argument stub>", repr(got), repr((0, False, Resource.main_thread))))
            continue
        f = "pair" if q == "pair_unpacked2" else q
        a = attrs.get(f)
        if a is None or f in TWZ_BUILTINS or f in OPS:
            continue      # tawazi's own nodes (and_, or_, not_, operators) carry tawazi's attributes
        got = (node.priority, bool(node.is_sequential), node.resource)
        want = (a.get("prio", 0), bool(a.get("seq", False)), a.get("res", Resource.thread))
        if got != want:
            out.append((id_, f, repr(got), repr(want)))
    return out


def id_scheme_problems(top):
    """The ids of the built table follow the allocation rule of GM.alloc: for every base name (a function's qualname at one
    nesting prefix; a sub-DAG's qualname) the suffixes <<k>> in use are exactly 0 … count-1 — never a gap, never a
    repetition (`GM.Dense`)."""
    import re
    groups = {}
    prefixes = {}
    for id_, node in top.exec_nodes.items():
        if type(node).__name__ != "LazyExecNode":
            continue
        *pre, last = id_.split(".")
        m = re.match(r"^(.*?)(?:<<(\d+)>>)?$", last)
        groups.setdefault((tuple(pre), m.group(1)), []).append(int(m.group(2) or 0))
        for d_ in range(len(pre)):
            mp = re.match(r"^(.*?)(?:<<(\d+)>>)?$", pre[d_])
            prefixes.setdefault((tuple(pre[:d_]), mp.group(1)), set()).add(int(mp.group(2) or 0))
    out = []
    for key, ks in groups.items():
        if sorted(ks) != list(range(len(ks))):
            out.append(("node ids", ".".join(key[0] + (key[1],)), sorted(ks)))
    for key, ks in prefixes.items():
        if sorted(ks) != list(range(len(ks))):
            out.append(("sub-DAG prefixes", ".".join(key[0] + (key[1],)), sorted(ks)))
    return out
