#!/venv/bin/python
"""check.py <Cxx> [--tier quick|thorough] [--replay file]

Decides one property: (1) Lean build + audit of the property's theorems (proof obligations),
(2) corpus replay, (3) correspondence slices against /repo's working tree with the property's
monitors, (4) verdict (see DESIGN.md section 5).  Exit 0 / 1 (VIOLATION line) / 2 (harness error)."""
import argparse
import json
import os
import sys
import time
import traceback

sys.path.insert(0, os.path.dirname(os.path.abspath(__file__)))
import common  # noqa: E402
from common import Failure  # noqa: E402


def main():
    ap = argparse.ArgumentParser()
    ap.add_argument("pid")
    ap.add_argument("--tier", default=os.environ.get("VERIF_TIER", "quick"), choices=["quick", "thorough"])
    ap.add_argument("--replay", default=None)
    ap.add_argument("--no-evidence", action="store_true", help="do not rewrite evidence/<id>.json (regression runs)")
    a = ap.parse_args()
    if a.no_evidence:
        os.environ["VERIF_NO_EVIDENCE"] = "1"
    seed = common.seed_from_env()
    t0 = time.time()
    import props
    if a.pid not in props.PROPS:
        print("unknown property", a.pid)
        return 2
    P = props.PROPS[a.pid]
    try:
        if a.replay:
            return props.replay(a.pid, a.replay)
        proof = common.audit(P["theorems"], a.tier)
        failures = []
        for pr in proof["problems"]:
            failures.append(Failure("proof", "proof-obligation: " + pr[:120], None, dict(problem=pr), slice_="proof"))
        coverage, fs, searcher = P["run"](a.pid, a.tier, seed)
        failures.extend(fs)
        return common.finish(a.pid, a.tier, seed, t0, proof, coverage, failures, P["assumptions"], searcher)
    except common.HarnessError as e:
        print("HARNESS-ERROR", str(e)[:2000])
        return 2
    except BaseException:  # noqa: BLE001  (tawazi's exceptions derive from BaseException)
        traceback.print_exc()
        return 2


if __name__ == "__main__":
    rc = main()
    sys.stdout.flush()
    os._exit(rc)   # leaked gated worker threads of failed runs must not keep the process alive
