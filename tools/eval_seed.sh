#!/bin/bash
# eval_seed.sh <ID> <check ids...>: confirm a seeded change (tests pass, demo fails with / passes without),
# then run the named checks against /repo with the patch applied, and undo it.
ID=$1; shift
OUT=${OUTBASE:-/tmp/seed_out}/$ID; WT=${WTBASE:-/tmp/wt_}$ID
echo "== confirm in worktree $WT"
cd $WT || exit 1
git diff --stat | tail -1
/venv/bin/python -m pytest -q -p no:cacheprovider --timeout=900 2>&1 | grep -E "passed|failed" | tail -1
(cd $WT && PYTHONPATH=$WT /venv/bin/python $OUT/demo.py >/dev/null 2>&1; echo "demo with change: exit $?")
git apply -R $OUT/patch.diff && (cd $WT && PYTHONPATH=$WT /venv/bin/python $OUT/demo.py >/dev/null 2>&1; echo "demo without change: exit $?"); git apply $OUT/patch.diff
echo "== checks against /repo with the patch"
cd /repo && git apply $OUT/patch.diff || { echo "patch does not apply to /repo"; exit 1; }
cd ${VERIF_DIR:-/verif}
for c in "$@"; do
  timeout 1200 /venv/bin/python harness/check.py $c > $OUT/check_$c.txt 2>&1; rc=$?
  echo "check $c rc=$rc $(grep -c '^VIOLATION' $OUT/check_$c.txt) violation line(s): $(grep '^VIOLATION' $OUT/check_$c.txt | head -2 | tr '\n' ' ')"
done
cd /repo && git checkout -- . && git status --short | grep -v '^??' ; echo "== /repo restored"
