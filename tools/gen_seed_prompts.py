#!/usr/bin/env python3
"""gen_seed_prompts.py <round-prefix> [outdir]: write one prompt per property for an independent sub-agent that is to
write a seeded breaking change.  The prompt carries ONLY the property text and its code anchors (from properties.jsonl)
plus, so that agents do not repeat each other, one line naming the mechanisms earlier contributors used for that
property (the slugs of seeded/*); nothing else from /verif.  Worktrees: /tmp/wt_<prefix><Cxx>; outputs: /tmp/seed_out/<prefix><Cxx>/."""
import json
import os
import sys

HERE = os.path.dirname(os.path.dirname(os.path.abspath(__file__)))
prefix = sys.argv[1]
outdir = sys.argv[2] if len(sys.argv) > 2 else "/tmp/seed_prompts"
hint = (" " + sys.argv[3]) if len(sys.argv) > 3 else ""
os.makedirs(outdir, exist_ok=True)

earlier = {}
for name in sorted(os.listdir(os.path.join(HERE, "seeded"))):
    meta = json.load(open(os.path.join(HERE, "seeded", name, "meta.json")))
    parts = name.split("-", 2)
    slug = parts[2].replace("-", " ") if len(parts) == 3 else name
    for p in {meta["breaks_property"], parts[1]}:
        earlier.setdefault(p, []).append(slug)

TEMPLATE = """You are helping to evaluate a verification tool by writing a realistic, subtle regression ("seeded bug") for the Python library mindee/tawazi (a DAG scheduler: functions decorated with @xn are traced by @dag into a dependency graph and run on a thread pool / asyncio with priorities and concurrency limits).

Your scratch git worktree of the repository is {wt} (work ONLY there; never touch /repo; do not read or list anything under /verif, /root/.claude, /root/.vp or /tmp/seed_out directories other than your own; do not look at other /tmp/wt_* directories). Python with the library's dependencies: /venv/bin/python. Run things from the worktree with PYTHONPATH={wt} so that your copy of tawazi is imported (check with `PYTHONPATH={wt} /venv/bin/python -c "import tawazi; print(tawazi.__file__)"`).

THE PROPERTY ({pid}): "{title}"
{statement}

Code anchors for this property (files / mechanisms): {anchors}

TASK: make ONE change to the library source under {wt}/tawazi (not to the tests) that BREAKS this property, such that
 1. the library still imports and the existing test suite still passes entirely: `cd {wt} && /venv/bin/python -m pytest -q -p no:cacheprovider --timeout=900 -x -q` (about 40 s; a test named test_main_thread_resource_computation_time may be flaky, ignore that one only);
 2. the change looks like something a maintainer could plausibly write (a refactoring, an optimisation, a "simplification", an off-by-one, a wrong copy, a reordered statement, a cache, handling moved to another place...), is small (usually < 25 changed lines), and is NOT a blatant sabotage, not dependent on environment variables, dates, randomness or special-cased inputs/names;
 3. it needs something SPECIFIC to manifest — a particular interleaving / completion order, a failure at a particular point, a multi-step sequence of operations on one object, an unusual but legitimate input shape, or two cooperating code sites that each look fine alone — NOT something ordinary use would expose at once. Ordinary simple pipelines must keep working.
 4. Earlier contributors already used these mechanisms for this property; choose a DIFFERENT code site and mechanism (prefer a file or function none of them touched): {earlier}.{hint}

DELIVERABLES, all written into {out}/ :
 - patch.diff : `cd {wt} && git diff > {out}/patch.diff` (the change, applying cleanly to the unchanged tree with `git apply`);
 - demo.py : a self-contained script (only stdlib + tawazi; no pytest needed) that exits 0 on the UNCHANGED tree and exits 1 (prints what went wrong) WITH your change; it must be deterministic (use threading.Event / barriers rather than sleeps where an interleaving matters; keep any sleep short) and finish within 20 s, never hang (use timeouts). Verify both: with the change applied, then `git apply -R {out}/patch.diff`, run again, and re-apply with `git apply {out}/patch.diff` (do NOT use `git stash`: the stash is shared by all worktrees of the repository).
 - notes.md : what you changed, why it breaks the property (which clause), what exactly is needed for it to manifest, and what you ran (test suite result with the change, demo result with / without).
Leave the worktree with your change applied (uncommitted). Delete test artefacts you created (cov.info, Digraph.gv*, pytest-junit.xml). Your final answer: 5-10 lines summarising the change, the manifestation conditions, and the verification you did."""

for line in open(os.path.join(HERE, "properties.jsonl")):
    p = json.loads(line)
    pid = p["id"]
    a = p.get("anchors", {})
    mech = "; ".join("%s (%s)" % (m["name"], m["where"]) for m in a.get("mechanism", []) + a.get("state", []))
    anchors = "%s | files: %s" % (mech, ", ".join(a.get("files", [])))
    rid = prefix + pid
    text = TEMPLATE.format(wt="/tmp/wt_" + rid, out="/tmp/seed_out/" + rid, pid=pid, title=p["title"], statement=p["statement"],
                           anchors=anchors, earlier="; ".join(earlier.get(pid, [])) or "(none yet)", hint=hint)
    open(os.path.join(outdir, rid + ".txt"), "w").write(text)
print("wrote %d prompts to %s" % (len(open(os.path.join(HERE, 'properties.jsonl')).readlines()), outdir))
