#!/bin/bash
# pp_eval.sh ID check : run a check against the agent's worktree via PYTHONPATH (no change to /repo)
id=$1; c=$2
cd /verif && PYTHONPATH=/tmp/wt_$id timeout 1500 /venv/bin/python harness/check.py $c --no-evidence > /tmp/seed_out/$id/check_$c.txt 2>&1; rc=$?
echo "$id $c rc=$rc $(grep '^VIOLATION' /tmp/seed_out/$id/check_$c.txt | head -2 | tr '\n' ' ')"
