#!/bin/bash
# sweep.sh <tier> <seed...>: run every check on the unchanged tree with the given seeds (false-alarm hunt).
# Meant for `vp run -- tools/sweep.sh quick 1 2 3 …` (builds the Lean project in the snapshot first).
TIER=$1; shift
cd "$(dirname "$0")/.." || exit 2
(cd lean && lake build >/dev/null 2>&1) || { echo "lake build failed"; exit 2; }
mkdir -p sweep_out
rc=0
for seed in "$@"; do
  for c in C01 C02 C03 C04 C05 C06 C07 C08 C09 C10 C11 C12 C13 C14 C15 C16 C17 C18 C19 C20; do
    echo "$seed $c"
  done
done | xargs -P ${SWEEP_JOBS:-5} -L 1 bash -c 'VERIF_SEED=$0 /venv/bin/python harness/check.py $1 --tier '"$TIER"' > sweep_out/$1_$0.log 2>&1; e=$?; echo "seed=$0 $1 exit=$e $(grep -c "^VIOLATION" sweep_out/$1_$0.log) violation(s)"; [ $e -eq 0 ]' || rc=1
echo "sweep done rc=$rc"
exit $rc
