#!/bin/bash
# check_seeded_par.sh [jobs] [name-prefix...]: regression of the checks against the stored seeded changes, in parallel and
# WITHOUT touching /repo: each seed gets a scratch worktree of /repo's HEAD under /tmp with the patch applied, and the
# check imports tawazi from there (PYTHONPATH precedes the .pth entry that points to /repo).  Worktrees are removed.
HERE="$(cd "$(dirname "$0")/.." && pwd)"
JOBS=${1:-6}; shift
one() {
  name=$1; d="$HERE/seeded/$name"; wt=/tmp/cs_$name
  skip=$(python3 -c "import json;m=json.load(open('$d/meta.json'));print(m.get('skip_regression',''))")
  if [ -n "$skip" ]; then echo "$name skipped: $skip"; return; fi
  c=$(python3 -c "import json;m=json.load(open('$d/meta.json'));print((m['caught_by'] or ['QUIET:'+m['breaks_property']])[0])")
  quiet=0; case "$c" in QUIET:*) quiet=1; c=${c#QUIET:};; esac
  git -C /repo worktree add --detach "$wt" HEAD -q 2>/dev/null || { echo "$name worktree-failed"; return; }
  if ! git -C "$wt" apply "$d/patch.diff" 2>/dev/null; then echo "$name patch-does-not-apply"; git -C /repo worktree remove --force "$wt"; return; fi
  out=/tmp/cs_$name.log
  (cd "$HERE" && PYTHONPATH="$wt" timeout 1500 /venv/bin/python harness/check.py "$c" --no-evidence > "$out" 2>&1); rc=$?
  n=$(grep '^VIOLATION' "$out" | grep -vc 'no-failing-input-found')
  if [ $quiet -eq 1 ]; then
    # a change judged NOT to break the property as stated (see its meta.json): the check must stay quiet
    if [ $rc -eq 0 ]; then echo "$name $c quiet-as-intended"; else echo "$name $c FALSE-ALARM rc=$rc"; fi
  elif [ $rc -eq 1 ] && [ "$n" -ge 1 ]; then echo "$name $c caught ($n concrete)"; else echo "$name $c MISSED rc=$rc concrete=$n"; fi
  git -C /repo worktree remove --force "$wt"
}
export -f one; export HERE
ls "$HERE/seeded" | { if [ $# -gt 0 ]; then grep -E "^($(echo "$@" | tr ' ' '|'))"; else cat; fi; } | xargs -P "$JOBS" -I{} bash -c 'one {}'
