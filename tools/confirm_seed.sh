#!/bin/bash
# confirm.sh ID : test suite passes with the change; demo fails with / passes without
ID=$1; WT=/tmp/wt_$ID; OUT=/tmp/seed_out/$ID
cd $WT || exit 1
t=$(/venv/bin/python -m pytest -q -p no:cacheprovider --timeout=900 2>&1 | grep -E "passed|failed" | tail -1)
PYTHONPATH=$WT /venv/bin/python $OUT/demo.py >/dev/null 2>&1; a=$?
git apply -R $OUT/patch.diff; PYTHONPATH=$WT /venv/bin/python $OUT/demo.py >/dev/null 2>&1; b=$?; git apply $OUT/patch.diff
git status --short | grep '^??' | awk '{print $2}' | xargs -r rm -rf
echo "$ID tests: $t | demo with=$a without=$b"
