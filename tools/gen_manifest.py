#!/usr/bin/env python3
"""Regenerates MANIFEST.json from the table below (kept in one place so it stays valid)."""
import json
import os

HERE = os.path.dirname(os.path.dirname(os.path.abspath(__file__)))
PY = "/venv/bin/python"

NOTE_COMMON = ("Trusted: Lean 4.33 kernel (axioms propext, Classical.choice, Quot.sound only; no sorry/native_decide), "
               "the hand-written model, and the correspondence harness tying it to /repo on every run "
               "(stdlib-level schedule control, no hook in /repo). ")

CHECKS = {
 "C02": ("Lean theorem TM.C02_deps_before_start over all runs of the scheduler LTS (any DAG, attributes, max_concurrency, completion order) + VM.C01_core for the values; tied to the code by trace acceptance (TM.next_sound) of real scheduler runs under scripted completion orders and by a direct monitor on every real trace.",
         "6", "invariant proof over scheduler LTS + trace acceptance"),
 "C03": ("Lean theorems C03_start_at_most_once / exactly_once_at_done / only_selected over all runs; tie: trace acceptance + execution counters on every real run.", "6", "invariant proof over scheduler LTS + trace acceptance"),
 "C04": ("Lean theorems C04_inflight_le_maxc (BInv through all 19 step constructors), C04_resource_decides (every start in every run happens where the node's resource says: pool / asyncio-wrapped pool / inline) and C04_in_flight_sets_match_resource; OS thread identity is observed on every real run (partial: runtime fact).", "6", "invariant proof over scheduler LTS + trace acceptance"),
 "C05": ("Lean theorem C05_sequential_exclusive (SInv); tie: trace acceptance + interval-overlap monitor on real enter/exit events with adversarially late completions.", "6", "invariant proof over scheduler LTS + trace acceptance"),
 "C06": ("Lean theorem C06_best_ready (ready set stated independently of the scheduler's runnable variable) with the model fed the *documented* compound priority (GM.C07_cp_is_own_plus_distinct_descendants), so a wrong or lost table is a rejected dispatch; monitor on every real start.", "6", "invariant proof + trace acceptance with specified priorities"),
 "C07": ("Lean theorems: cpAll = own + sum over any duplicate-free enumeration of the reachable set (order/hash independent), descendants = reachability; differential run of the real tables (whole DAG, after config_from_dict, executors) against the Lean definition, fresh processes under several PYTHONHASHSEEDs, unique max_concurrency=1 order.", "7", "proof of graph functions + differential testing"),
 "C08": ("Lean C08_partial (single pooled kind) proved over all runs; full statement refuted in the model by C08_mixed_witness, which is the recorded known finding (mixed thread/async-thread second wait). Monitor evaluates the statement at every real blocking call; any other signature is a violation.", "6", "invariant proof (partial) + machine-checked counter-witness + monitor"),
 "C09": ("Lean C09_bound (every run has length <= 32*|nodes|+12: no infinite execution, via a measure through all step constructors and a decide-checked finite abstraction for silent steps) and C09_progress (no reachable live state is stuck, every admissible completion set is enabled); tie: trace acceptance, watchdog on every real run. Partial: blocking primitives returning is the stdlib's contract.", "6", "termination measure + progress proof + trace acceptance"),
 "C12": ("Lean C12_closure and selectNodes_spec: the executable three-step selection (the function compared with make_subgraph on every run) equals the documented closure; alias forms are in the model too (GM.resolveAlias / resolveAll: node reference, string as tag first then id, unknown refused — C12_alias_tag_wins, C12_alias_id, C12_alias_unknown_refused, C12_alias_list_is_union) and every generated selection reaches the Lean driver as aliases, not as pre-resolved node sets; differential runs over random graphs/selections/alias forms, returned values and execution counters.", "7", "proof of graph functions + differential testing"),
 "C13": ("Lean C13_flag_off_no_debug and C13_pulled_debug_has_inputs about the executable debug extension compared with the real executor graphs for both flag values; monitors on every selection; value equality on/off.", "7", "proof of graph functions + differential testing"),
 "C14": ("Lean C14_err_terminal / err_is_node_failure / no_dependent_of_failed over all runs (failing nodes adversarial); tie: trace acceptance with strict treatment of exceptions (an exception that is not a node failure is rejected), monitor on message, location and cause. Partial: message formatting checked, not proved.", "6", "invariant proof over scheduler LTS + trace acceptance"),
 "C01": ("Lean theorems VM.C01_core (schedule independence: every returning run of the scheduler LTS with values computes the sequential denotation, for every attribute assignment and max_concurrency) and tracer correctness: VM.C01_flat (flat fragment) VM.C20_nested_inlining (modules with nested calls at any depth, defaults, argument stubs, unpack_to, flags on plain calls) and VM.C20_nested_inlining_flags (the same WITH activation flags on nested calls, for every module satisfying the decidable predicate FlagSafe = each flagged nested call targets a callee returning only whole results of its own nodes and using no unpack_to; the driver evaluates flagSafeB on every generated module) — PARTIAL only outside FlagSafe, where the code departs from inlining: the two known findings, proved as model theorems C20_flag_witness_default / C20_flag_witness_indexed and replayed on the code. Tied by the four-way differential run (CPython oracle, real tawazi under random configurations / flavours / config reloads / scripted completion orders, Lean plain evaluation, Lean tracer+denotation) and a directed enumeration of argument-passing forms.", "7", "proof (core + flat fragment) + four-way differential testing"),
 "C10": ("Activation semantics are part of VM.C01_core / C01_flat (flag read through the full reference, deactivated node yields None, dependents released); tie: programs with every flag form on plain nodes and nested DAGs (directed enumeration of nested-call forms) against the CPython oracle and the Lean model. Flags on nested calls: VM.C20_nested_inlining_flags (falsy flag => every output None, arguments not evaluated; truthy => as unflagged) for FlagSafe modules; outside FlagSafe the two known findings (model witnesses C20_flag_witness_default / _indexed). A counterexample inside FlagSafe, or one the model does not mirror, is never matched to a known finding.", "7", "proof (flat fragment) + differential testing + directed enumeration"),
 "C20": ("Executable Lean model of nested calls by inlining with argument stubs (VM/Prog.lean: traceStmts / evalStmts) compared four ways on random and systematically enumerated nestings (signatures x argument supply x shapes x flags); Proved: VM.C20_nested_inlining (traceStmts_good by induction on nesting depth and statements, bindParamRefs_good for stubs/defaults): every returning execution resolves the return references to the plain components; flags on nested calls: VM.C20_nested_inlining_flags for FlagSafe modules (traceStmts_goodF / traceStmts_dead: the imposed flag reaches every stub and node of the callee at any depth); PARTIAL only outside FlagSafe (the two known findings, with model witnesses); the model inlines the callee's body whereas the code splices its table — that they agree is what the differential runs check.", "7", "proof by induction on nesting + differential testing"),
 "C11": ("Lean theorem VM.C11_setup_at_most_once over arbitrary histories of successful operations, applyOp_res_keep (first value kept); tie: random operation histories (call / executor / setup / setup(target) / deepcopy, sync+async, under scripted completion orders) compared op by op with the Lean history model (entered sets, values).", "7", "induction over histories + differential testing"),
 "C15": ("Lean theorems runHistory_res_nonsetup / applyOp_res_nonsetup (an instance only ever gains setup results, failing operations included) so a call's outcome is a function of (table, setup results, own arguments); tie: histories with different argument tuples, failing calls, executors, compose, config reloads; executor re-runs after success and after failure must be refused or complete.", "7", "induction over histories + differential testing"),
 "C18": ("Lean theorem VM.C18_restart_same (a run seeded with cached values computes the same results and its execution graph excludes the cached nodes); tie: (caching run, restart) pairs over whole DAG / target nodes / cache_deps_of with execution counters and pickle key sets. Partial: pickle round-trip trusted.", "7", "proof over denotation + differential testing"),
 "C16": ("Lean theorem TH.C16_owner_safe: under EVERY interleaving of well-bracketed thread programs (builds, decorated-function calls outside a DAG, calls of shared DAGs) each thread observes a prefix of what it observes alone, for the owner-aware description-context test the code now uses; TH.C16_pinned_witness is the machine-checked counterexample for the test the pinned code used. Tie: real threads forced through scripted interleavings (random + every interleaving of small programs) compared with the model and with solo observations; overlapping runs of one shared DAG with distinct arguments. Partial: atomicity assumed at API-segment granularity.", "7", "invariant proof over all interleavings + scripted real-thread interleavings"),
 "C17": ("(a) Lean VM.C17a_flavours_agree: both flavours run the same scheduler over the same table, so any two returning executions (any attributes, max_concurrency, completion orders) hold the same result on every node and started the same nodes once each; tie: the same programs executed in both flavours must agree (value or error) under random configurations and scripted completion orders; (b) Lean VM.C17b_concurrent_awaits_isolated (prun_proj: any interleaving of k executions, each on its private copy of the results, computes each one's own denotation); tie: asyncio.gather of 2-8 concurrent awaits with distinct arguments (cold setup nodes included) under scripted completion orders; (c) Lean TM.C17c_partial: without thread-resource nodes the scheduler never executes a loop-blocking wait; TM.C17c_mixed_witness refutes it for mixed resources = recorded known finding. Partial: event-loop fairness itself is trusted (runtime), liveness is observed by a heartbeat coroutine.", "7", "proof (liveness partial) + differential/flavour testing"),
 "C19": ("Lean theorem VM.C19_compose_correct: for every well-formed table, inputs, outputs and supplied values the composed table (inputs become holders of the supplied values; restriction to what the outputs need, proved dependency-closed) returns for every output what the original pipeline computes with those values; the original table is untouched (pure function). Tie: real composed DAGs vs the Lean table-level model and an independent Python oracle on random and (thorough) exhaustive (inputs, outputs) pairs, keyword/indexed uses, alias forms, Ellipsis, error cases; original probed before/after. Out of scope: an output that is also an input (refused/ambiguous by an existing test).", "7", "proof over denotation (restriction theorem) + differential testing"),
}

NOT_YET = {
}


def main():
    checks = []
    for pid, (text, ref, tech) in sorted(CHECKS.items()):
        checks.append(dict(
            property_id=pid,
            quick_cmd="%s harness/check.py %s --tier quick" % (PY, pid),
            thorough_cmd="%s harness/check.py %s --tier thorough" % (PY, pid),
            evidence_file="evidence/%s.json" % pid,
            replay_cmd_template="%s harness/check.py %s --replay {path}" % (PY, pid),
            engine="lean-model+correspondence",
            level_claimed=dict(category="proof", text=text, design_ref="DESIGN.md section " + ref),
            level_note=NOTE_COMMON,
            technique=tech))
    props = [json.loads(l)["id"] for l in open(os.path.join(HERE, "properties.jsonl"))]
    na = [dict(property_id=p, reason=NOT_YET.get(p, "check not built yet in this revision (planned, see DESIGN.md section 7); not claimed until it runs"))
          for p in props if p not in CHECKS]
    man = dict(
        version=1,
        setup_cmd="cd lean && lake build",
        hooks=dict(guard="MINDEE_TAWAZI_VERIF", enable="none needed: the harness patches the standard library only; no hook exists in /repo",
                   baseline_off_cmd="cd /repo && /venv/bin/python -m pytest -ra -q -p no:cacheprovider --timeout=900 --continue-on-collection-errors",
                   source_commits=[], add_only=True),
        engines=[dict(name="lean-model+correspondence", path="lean/ + harness/", serves_properties=sorted(CHECKS),
                      kind_free_text="Lean 4 model and theorems; Python correspondence harness driving the real code under scripted schedules; Lean line-protocol drivers")],
        checks=checks,
        not_applicable=na,
        notes="Fix commits in /repo: see known_findings.json (status fixed). Known findings are listed there by signature.")
    with open(os.path.join(HERE, "MANIFEST.json"), "w") as f:
        json.dump(man, f, indent=1)


if __name__ == "__main__":
    main()
