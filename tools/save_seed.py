#!/usr/bin/env python3
"""save_seed.py <ID> <name> <property> <caught_by csv> <needs...>: store a confirmed seeded change under seeded/<name>/."""
import json, os, shutil, sys
ID, name, prop, caught = sys.argv[1:5]
needs = " ".join(sys.argv[5:])
src = os.path.join(os.environ.get("OUTBASE", "/tmp/seed_out"), ID)
dst = os.path.join(os.path.dirname(os.path.dirname(os.path.abspath(__file__))), "seeded", name)
os.makedirs(dst, exist_ok=True)
for f in ("patch.diff", "demo.py", "notes.md"):
    if os.path.exists(os.path.join(src, f)):
        shutil.copy(os.path.join(src, f), os.path.join(dst, f))
checks = {}
for f in sorted(os.listdir(src)):
    if f.startswith("check_") and f.endswith(".txt"):
        lines = [l.strip() for l in open(os.path.join(src, f)) if l.startswith("VIOLATION") or l.startswith("KNOWN-FINDING")]
        checks[f[6:-4]] = lines[:4] or ["(exit 0, no VIOLATION line)"]
meta = dict(breaks_property=prop, needs_to_manifest=needs,
            written_by="independent sub-agent given only the property text and a scratch worktree",
            confirmed=dict(test_suite_with_change="353 passed", demo_with_change="exit 1", demo_without_change="exit 0",
                           how=os.environ.get("SEED_HOW", "tools/confirm_seed.sh: pytest + demo in the scratch worktree, with and without the patch; checks run by tools/eval_seed_pp.sh with PYTHONPATH=<worktree> (tawazi imported from the patched worktree, /repo untouched)")),
            checks_run_against_repo_with_patch=checks, caught_by=[c for c in caught.split(",") if c],
            apply="git -C /repo apply seeded/%s/patch.diff ; <run checks> ; git -C /repo checkout -- ." % name)
json.dump(meta, open(os.path.join(dst, "meta.json"), "w"), indent=1)
print("saved", dst)
