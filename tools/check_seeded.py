#!/usr/bin/env python3
"""Regression suite of the checks themselves: apply each seeded change to /repo, run the check(s) that are
recorded to catch it, expect exit 1 with a VIOLATION line carrying a concrete replay, undo the change.
Usage: tools/check_seeded.py [name-prefix …]     (never leaves /repo modified)"""
import json
import os
import subprocess
import sys

HERE = os.path.dirname(os.path.dirname(os.path.abspath(__file__)))
REPO = "/repo"


def main():
    sel = sys.argv[1:]
    names = sorted(os.listdir(os.path.join(HERE, "seeded")))
    bad = 0
    for name in names:
        if sel and not any(name.startswith(s) for s in sel):
            continue
        d = os.path.join(HERE, "seeded", name)
        meta = json.load(open(os.path.join(d, "meta.json")))
        if subprocess.run(["git", "-C", REPO, "status", "--porcelain", "--untracked-files=no"], capture_output=True, text=True).stdout.strip():
            print("REFUSING: /repo has local modifications")
            return 2
        p = subprocess.run(["git", "-C", REPO, "apply", os.path.join(d, "patch.diff")], capture_output=True, text=True)
        if p.returncode != 0:
            print("%-55s patch does not apply: %s" % (name, p.stderr.strip()[:100]))
            bad += 1
            continue
        try:
            res = []
            for c in meta["caught_by"][:1]:
                q = subprocess.run(["/venv/bin/python", os.path.join(HERE, "harness", "check.py"), c],
                                   capture_output=True, text=True, cwd=HERE, timeout=1500)
                concrete = [l for l in q.stdout.splitlines() if l.startswith("VIOLATION") and "no-failing-input-found" not in l]
                res.append((c, q.returncode, len(concrete)))
            ok = all(rc == 1 and n >= 1 for _c, rc, n in res)
            print("%-55s %s %s" % (name, "caught" if ok else "MISSED", res))
            bad += 0 if ok else 1
        finally:
            subprocess.run(["git", "-C", REPO, "checkout", "--", "."], check=True)
    print("missed:", bad)
    return 1 if bad else 0


if __name__ == "__main__":
    sys.exit(main())
