#!/bin/bash
# proc_seed.sh ID Cxx [Cyy...]: reset the worktree to HEAD + patch.diff, confirm, run checks via PYTHONPATH
ID=$1; shift
cd /tmp/wt_$ID && git checkout -q -- . && git apply /tmp/seed_out/$ID/patch.diff || { echo "$ID patch does not apply to a clean tree" > /tmp/seed_out/$ID/confirm.txt; exit 1; }
/verif/tools/confirm_seed.sh $ID > /tmp/seed_out/$ID/confirm.txt 2>&1
for c in "$@"; do /verif/tools/eval_seed_pp.sh $ID $c >> /tmp/seed_out/$ID/confirm.txt 2>&1; done
cat /tmp/seed_out/$ID/confirm.txt
