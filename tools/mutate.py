#!/usr/bin/env python3
"""mutate.py <n> [seed] [outfile]: systematic complement to the independently seeded changes.

Samples <n> small syntactic mutants of the library's core files (operator / constant / keyword swaps, a dropped `not`,
`continue`/`break` swaps), and for each one that still imports AND passes the repository's own test suite runs all 20
quick checks against it (tawazi imported from a scratch copy through PYTHONPATH; /repo itself is never touched).
Prints one JSON line per mutant: where, what, tests passed?, which checks raised a VIOLATION, which exited 2.
A mutant that passes the tests and every check is a SURVIVOR: either an equivalent mutant or a gap of the checks.
Meant for `vp run --timeout 6h -- python3 tools/mutate.py 150 1 mutants.jsonl`."""
import json
import os
import random
import re
import shutil
import subprocess
import sys
import tempfile

HERE = os.path.dirname(os.path.dirname(os.path.abspath(__file__)))
REPO = os.environ.get("VP_RUN_REPO") or "/repo"
FILES = ["tawazi/_dag/helpers.py", "tawazi/_dag/dag.py", "tawazi/_dag/digraph.py", "tawazi/node/node.py",
         "tawazi/node/uxn.py", "tawazi/_dag/constructor.py", "tawazi/node/helpers.py"]
SWAPS = [(r" == ", " != "), (r" != ", " == "), (r" and ", " or "), (r" or ", " and "), (r" < ", " <= "), (r" <= ", " < "),
         (r" > ", " >= "), (r" >= ", " > "), (r" is not None", " is None"), (r" is None", " is not None"),
         (r"\bnot ", ""), (r"\bcontinue\b", "break"), (r"\bbreak\b", "continue"), (r" \+ 1\b", " + 0"), (r" - 1\b", " - 0"),
         (r"\bTrue\b", "False"), (r"\bFalse\b", "True"), (r" in ", " not in "), (r"\.union\(", ".intersection("),
         (r"FIRST_COMPLETED", "ALL_COMPLETED"), (r"ALL_COMPLETED", "FIRST_COMPLETED"), (r"\|=", "&="), (r" if ", " if not ")]
CHECKS = ["C%02d" % i for i in range(1, 21)]


def candidates():
    out = []
    for f in FILES:
        lines = open(os.path.join(REPO, f)).read().split("\n")
        in_doc = False
        for ln, line in enumerate(lines):
            st = line.strip()
            if st.count('"""') == 1:
                in_doc = not in_doc
                continue
            if in_doc or not st or st.startswith("#") or st.startswith('"""') or st.startswith("import ") or st.startswith("from ") \
                    or "logger." in st or "raise " in st and "f\"" in st:
                continue
            code = line.split("  # ")[0]
            for pat, rep in SWAPS:
                for m in re.finditer(pat, code):
                    out.append((f, ln, m.start(), m.end(), rep, pat))
    return out


def run(cmd, cwd, env=None, timeout=1500):
    try:
        p = subprocess.run(cmd, cwd=cwd, env=env, capture_output=True, text=True, timeout=timeout)
        return p.returncode, p.stdout + p.stderr
    except subprocess.TimeoutExpired:
        return 124, "timeout"


def main():
    n = int(sys.argv[1])
    seed = int(sys.argv[2]) if len(sys.argv) > 2 else 1
    outp = sys.argv[3] if len(sys.argv) > 3 else None
    rng = random.Random(seed)
    cands = candidates()
    rng.shuffle(cands)
    done = 0
    sink = open(outp, "a") if outp else sys.stdout
    for (f, ln, a, b, rep, pat) in cands:
        if done >= n:
            break
        scratch = tempfile.mkdtemp(prefix="twzmut")
        try:
            for item in ("tawazi", "tests", "pyproject.toml", "README.md", "documentation", "scripts"):
                src = os.path.join(REPO, item)
                if os.path.isdir(src):
                    shutil.copytree(src, os.path.join(scratch, item))
                elif os.path.exists(src):
                    shutil.copy(src, scratch)
            path = os.path.join(scratch, f)
            lines = open(path).read().split("\n")
            old = lines[ln]
            lines[ln] = old[:a] + rep + old[b:]
            open(path, "w").write("\n".join(lines))
            env = dict(os.environ, PYTHONPATH=scratch)
            rc, _ = run(["/venv/bin/python", "-c", "import tawazi"], scratch, env, 60)
            rec = dict(file=f, line=ln + 1, before=old.strip(), after=lines[ln].strip())
            if rc != 0:
                continue        # does not import: not a mutant anybody could ship
            rc, out = run(["/venv/bin/python", "-m", "pytest", "-q", "-x", "-p", "no:cacheprovider", "--timeout=300", "--no-cov"], scratch, env, 900)
            rec["tests_pass"] = rc == 0
            done += 1
            if rc != 0:
                rec["verdict"] = "killed-by-tests"
                sink.write(json.dumps(rec) + "\n"); sink.flush()
                continue
            caught, broken, concrete = [], [], []
            jobs = int(os.environ.get("MUT_JOBS", "6"))
            for k0 in range(0, len(CHECKS), jobs):
                procs = {c: subprocess.Popen(["/venv/bin/python", "harness/check.py", c, "--no-evidence"], cwd=HERE, env=env,
                                             stdout=subprocess.PIPE, stderr=subprocess.STDOUT, text=True) for c in CHECKS[k0:k0 + jobs]}
                for c, p in procs.items():
                    try:
                        o, _ = p.communicate(timeout=1500)
                    except subprocess.TimeoutExpired:
                        p.kill(); o = ""; broken.append(c); continue
                    if p.returncode == 1:
                        caught.append(c)
                        if any(l.startswith("VIOLATION") and "no-failing-input-found" not in l for l in o.splitlines()):
                            concrete.append(c)
                    elif p.returncode != 0:
                        broken.append(c)
            rec.update(caught_by=caught, concrete=concrete, exit2=broken,
                       verdict="caught" if caught else ("harness-error-only" if broken else "SURVIVOR"))
            sink.write(json.dumps(rec) + "\n"); sink.flush()
        finally:
            shutil.rmtree(scratch, ignore_errors=True)


if __name__ == "__main__":
    main()
