#!/bin/bash
# thorough_all.sh [jobs]: every check's thorough tier on the unchanged tree (meant for `vp run --timeout 8h -- tools/thorough_all.sh 4`)
cd "$(dirname "$0")/.." || exit 2
(cd lean && lake build >/dev/null 2>&1) || { echo "lake build failed"; exit 2; }
mkdir -p sweep_out
for c in C01 C02 C03 C04 C05 C06 C07 C08 C09 C10 C11 C12 C13 C14 C15 C16 C17 C18 C19 C20; do echo $c; done |
  xargs -P ${1:-4} -I{} bash -c 's=$(date +%s); /venv/bin/python harness/check.py {} --tier thorough > sweep_out/thorough_{}.log 2>&1; e=$?; echo "{} thorough exit=$e $(( $(date +%s) - s ))s $(grep -c "^VIOLATION" sweep_out/thorough_{}.log) violation(s)"'
echo done
